"""Bounded stand-in / witness finder for C01 and C02 on the real Mitochondria (labelled bounded).
C01: a corpus of forbidden constructs must fail without side effects; hostile strings must never make metabolize raise (also non-silent);
     cost bombs run in a supervised child process against the configured timeout (the resource clause is a recorded known finding).
C02: grammar-directed enumeration (depth <= 2/3) of the allowed subset, engine vs restricted CPython eval with the same allow-listed names;
     disagreements are classified, classes listed as open known findings are reported as such."""
import ast, io, itertools, json, math, multiprocessing as mp, os, sys, contextlib, time
ROOT = os.path.dirname(os.path.dirname(os.path.abspath(__file__)))
sys.path.insert(0, os.environ.get("OPERON_REPO", "/repo"))


def known_classes(prop):
    try:
        d = json.load(open(os.path.join(ROOT, "known_findings.json")))
    except OSError:
        return {}
    return {f["bounded_class"]: f for f in d.get("findings", []) if f.get("property") == prop and f.get("status", "open") == "open" and f.get("bounded_class")}


FORBIDDEN = ["(1).real", "[1,2][0]", "'a'.upper()", "(lambda: 1)()", "[x for x in [1]]", "{1: 2}", "{1, 2}", "f'{1}'", "__import__('os')",
             "open('/etc/passwd')", "getattr(1, 'real')", "eval('1')", "exec('1')", "(x := 1)", "abs.__name__", "().__class__", "print(1)",
             "globals()", "type(1)", "1 if open else 2", "max.__self__", "sum([1],[])[0]", "*[1]", "abs(*[1])", "abs(**{})", "ast", "os", "self",
             "a", "pi.real", "[].append(1)", "str(1)", "chr(65)", "input()", "compile('1','','eval')", "breakpoint()", "help()", "1; 2", "import os",
             "yield 1", "await x", "not_a_tool(1)", "(1).__add__(2)", "int.__subclasses__()", "float('1').hex()"]
HOSTILE = ["\ud800", '"\ud800"', "\x00", "1+" * 20000 + "1", "(" * 300 + "1" + ")" * 300, "-" * 900 + "1", "9" * 5000, "'" + "a" * 999, "", " ", "\n", "1 +", "((", "0x", "1e999",
           "1/0", "1%0", "2**-1", "sqrt(-1)", "log(0)", "factorial(-1)", "int('x')", "[" * 200 + "]" * 200, '{"a":' * 100, "True and", "é" * 100, "𝟙+1", "1_000", "0o17", "1j", "...", "None", "b'a'",
           # failures that are NOT ordinary evaluation errors: parser stack overflow and impossible allocations raise MemoryError, deep nesting RecursionError
           "-" * 7000 + "1", "+-" * 4500 + "1", "'a' * 10**15", "(0, 0) * 10**15", "[0] * 10**15", "not " * 2400 + "1", "abs(" * 150 + "1" + ")" * 150]


def child_eval(expr, q, timeout_cfg):
    from operon_ai.organelles.mitochondria import Mitochondria
    with contextlib.redirect_stdout(io.StringIO()):
        m = Mitochondria(timeout_seconds=timeout_cfg, silent=True)
        t0 = time.time()
        r = m.metabolize(expr)
        q.put((r.success, time.time() - t0))


def c01_search(with_bombs=True):
    from operon_ai.organelles.mitochondria import Mitochondria, MetabolicPathway, SimpleTool
    known = known_classes("C01")
    seen = {}
    n = 0
    ran = []
    for silent in (True, False):
        for expr in FORBIDDEN + HOSTILE:
            for pathway in (None, MetabolicPathway.GLYCOLYSIS, MetabolicPathway.KREBS_CYCLE, MetabolicPathway.OXIDATIVE, MetabolicPathway.BETA_OXIDATION):
                n += 1
                buf = io.StringIO()
                with contextlib.redirect_stdout(io.StringIO()):
                    m = Mitochondria(silent=silent)
                    m.engulf_tool(SimpleTool(name="t", description="d", func=lambda *a, **k: ran.append(1) or 1))
                try:
                    with contextlib.redirect_stdout(buf):
                        r = m.metabolize(expr, pathway)
                except BaseException as e:
                    return n, f"raise: metabolize({expr[:40]!r}, pathway={pathway}, silent={silent}) raised {type(e).__name__}", seen
                if expr in FORBIDDEN and r.success and r.pathway in (MetabolicPathway.GLYCOLYSIS, MetabolicPathway.KREBS_CYCLE, MetabolicPathway.OXIDATIVE):
                    return n, f"confinement: forbidden construct {expr!r} evaluated successfully to {r.atp.value!r} (pathway={pathway})", seen
    # a successful result is a VALUE: no piece of the syntax tree, code object, module, function or class may come back
    import ast as _ast, types as _types

    def leak(v, depth=0):
        if isinstance(v, (_ast.AST, _types.CodeType, _types.ModuleType, _types.FunctionType, _types.BuiltinFunctionType, type)):
            return type(v).__name__
        if depth < 4 and isinstance(v, (list, tuple, set, frozenset)):
            for x in v:
                w = leak(x, depth + 1)
                if w:
                    return w
        if depth < 4 and isinstance(v, dict):
            for k_, x in v.items():
                w = leak(k_, depth + 1) or leak(x, depth + 1)
                if w:
                    return w
        return None
    for expr in ("[1, 2]", "(1, 2)", "[1, [2, 3]]", "max([1, 2])", "1 if 2 else 3", "[1 + 1, 2 * 3]", "(1 < 2, 'a')", "-(3)", "not 0", "1 < 2 < 3", "abs(-2)",
                 "round(2.5, ndigits=0)", "[]", "()", "[True and 1]", "'a' + 'b'", "2 ** 3", "pi", "sqrt(4)"):
        for pathway in (None, MetabolicPathway.GLYCOLYSIS, MetabolicPathway.KREBS_CYCLE):
            n += 1
            with contextlib.redirect_stdout(io.StringIO()):
                r = Mitochondria(silent=True).metabolize(expr, pathway)
            if r.success and leak(r.atp.value):
                return n, f"confinement: metabolize({expr!r}, pathway={pathway}) returned a {leak(r.atp.value)} object inside its value ({r.atp.value!r}): not a computed value", seen
    if ran:
        return n, "a tool body ran for an expression that does not name it", seen
    if with_bombs:
        ctx = mp.get_context("fork")
        for expr in ("9**9**9", "factorial(10**7)", "10**10**8", "2**(2**40)"):
            n += 1
            q = ctx.Queue()
            p = ctx.Process(target=child_eval, args=(expr, q, 0.5))
            p.start()
            p.join(4.0)
            if p.is_alive():
                p.kill()
                p.join()
                cls = "resource:timeout-not-enforced"
                desc = f"{cls}: Mitochondria(timeout_seconds=0.5).metabolize({expr!r}) had not returned after 4 s (killed)"
                if cls in known:
                    seen.setdefault(cls, desc)
                    break           # one supervised bomb is enough to keep the known finding alive (each costs 4 s)
                return n, desc, seen
    return n, None, seen


# ---------------------------------------------------------------- C02 differential
def gen_exprs(depth):
    atoms = ["1", "0", "2.5", "-3", "True", "False", "'a'", "''", "pi"]
    if depth == 0:
        return atoms
    sub = gen_exprs(depth - 1)
    small = sub[:9] if depth > 1 else sub
    out = list(atoms)
    for op in ("+", "-", "*", "/", "//", "%", "**"):
        for a in small[:5]:
            for b in small[:5]:
                out.append(f"({a}) {op} ({b})")
    for op in ("==", "!=", "<", "<=", ">", ">="):
        for a in small[:4]:
            for b in small[:4]:
                out.append(f"({a}) {op} ({b})")
    for a in small[:4]:
        for b in small[:4]:
            out += [f"({a}) and ({b})", f"({a}) or ({b})", f"({a}) < ({b}) <= 2", f"({a}) if ({b}) else 7"]
        out += [f"not ({a})", f"-({a})", f"+({a})", f"abs({a})", f"[{a}, 1]", f"({a}, 2)", f"len([{a}])", f"max({a}, 1)", f"min([{a}, 1])",
                f"round(2.567, {a})", f"round(2.567, ndigits={a})", f"int({a})", f"float({a})", f"bool({a})", f"sum([{a}, 1])", f"pow({a}, 2)", f"floor({a})"]
    out += ["pi()", "e()", "round(3.14159, ndigits=2)", "int('7', base=8)", "max([1, 2], default=0)", "sum([1, 2], start=3)", "1 < 2 < 3", "3 > 2 > 2",
            "1 == 1.0 == True", "len('True') == 4", "'true' == 'true'", "len('false')", "'a and b'", "len(' or ')", "[1, 2] == [1, 2]", "['\\/']", '["\\/"]', '["\\u0041"]', "[1e400]", "[1, 2, 3]", "[true]", "[null]",
            "(1) and (2)", "0 or 5", "'' or 'x'", "1 and 0 and 3", "not 0", "not ''", "True + True", "10 / 4", "10 // 4", "-7 // 2", "-7 % 3", "2 ** 10", "2 ** 0.5",
            "+'a'", "+[1]", "+(1, 2)", "+(1 < 2)", "[+(2 > 1), +(2 < 1)]", "-(1 < 2)", "+5", "-(+3) * 2",
            "2 ^ 3", "len('2^10')", "'x^y' + '!'", "('^', 1)", "'a&b|c~d'", "len('1 if 2 else 3')", "'not x' == 'not x'", "len('**') + len('//')",
            "inf", "tau", "sqrt(16)", "log(e)", "gcd(12, 18)", "factorial(5)", "degrees(pi)", "atan2(1, 1)", "trunc(-2.5)", "ceil(2.1)"]
    return list(dict.fromkeys(out))


def rand_expr(rnd, d):
    """a random expression of the allowed subset, nesting depth <= d (exponents and factorial arguments stay atoms: no cost bombs)"""
    atoms = ["1", "0", "2", "3", "2.5", "-3", "0.1", "True", "False", "'a'", "''", "'ab'", "pi", "e"]
    if d <= 0 or rnd.random() < 0.15:
        return rnd.choice(atoms)
    sub = lambda: rand_expr(rnd, d - 1)
    k = rnd.randrange(16)
    if k == 0:
        return f"({sub()}) {rnd.choice(['+', '-', '*', '/', '//', '%'])} ({sub()})"
    if k == 1:
        return f"({sub()}) ** {rnd.choice(['0', '1', '2', '3', '0.5', '-1'])}"
    if k == 2:
        return f"({sub()}) {rnd.choice(['==', '!=', '<', '<=', '>', '>='])} ({sub()})"
    if k == 3:
        return f"({sub()}) {rnd.choice(['<', '<=', '==', '>'])} ({sub()}) {rnd.choice(['<', '!=', '>='])} ({sub()})"
    if k == 4:
        return f"({sub()}) {rnd.choice(['and', 'or'])} ({sub()})"
    if k == 5:
        return f"({sub()}) and ({sub()}) or ({sub()})"
    if k == 6:
        return f"{rnd.choice(['not ', '-', '+'])}({sub()})"
    if k == 7:
        return f"({sub()}) if ({sub()}) else ({sub()})"
    if k == 8:
        return f"{rnd.choice(['abs', 'int', 'float', 'bool', 'round', 'floor', 'ceil', 'trunc', 'sqrt', 'len'])}({sub()})"
    if k == 9:
        return f"{rnd.choice(['max', 'min', 'pow', 'round', 'gcd', 'atan2'])}({sub()}, {sub()})"
    if k == 10:
        return f"{rnd.choice(['sum', 'max', 'min', 'len'])}([{sub()}, {sub()}])"
    if k == 11:
        return f"[{sub()}, {sub()}]"
    if k == 12:
        return f"({sub()}, {sub()})"
    if k == 13:
        return f"round({sub()}, ndigits={rnd.choice(['0', '1', '2'])})"
    if k == 14:
        return f"factorial({rnd.choice(['0', '1', '3', '5', '-1', '2.5'])})"
    return f"max([{sub()}], default={sub()})"


def c02_search(depth=2, n_random=0, seed=0):
    from operon_ai.organelles.mitochondria import Mitochondria, MetabolicPathway
    known = known_classes("C02")
    seen = {}
    names = dict(Mitochondria.SAFE_FUNCTIONS)
    n = 0
    m = Mitochondria(silent=True, max_ros=10 ** 9)
    import random as _random
    rnd = _random.Random(seed)
    exprs = gen_exprs(depth) + [rand_expr(rnd, depth + 1) for _ in range(n_random)]
    for expr in exprs:
        n += 1
        try:
            tree = ast.parse(expr, mode="eval")
            py_ok, py_val = True, eval(compile(tree, "<e>", "eval"), {"__builtins__": {}}, dict(names))
        except BaseException as e:
            py_ok, py_val = False, e
        for pathway in (None, MetabolicPathway.GLYCOLYSIS, MetabolicPathway.KREBS_CYCLE):
            with contextlib.redirect_stdout(io.StringIO()):
                r = m.metabolize(expr, pathway)
            used = r.pathway
            cls = None
            if r.success:
                val = r.atp.value
                if not py_ok:
                    cls = "python-raises-engine-succeeds"
                else:
                    exp = bool(py_val) if used == MetabolicPathway.KREBS_CYCLE else py_val
                    same = (val == exp and type(val) == type(exp)) or (isinstance(val, float) and isinstance(exp, float) and math.isnan(val) and math.isnan(exp))
                    if used == MetabolicPathway.BETA_OXIDATION:
                        same = val == py_val and type(val) == type(py_val)
                    if not same:
                        cls = "value-differs"
            if cls:
                import re as _re
                why = "text-rewrite-of-literals" if (used == MetabolicPathway.KREBS_CYCLE and _re.search(r"true|false|True|False", expr)
                                                      and ("'" in expr or '"' in expr or _re.search(r"\btrue\b|\bfalse\b", expr))) else \
                    ("json-first-on-bracket-literals" if used == MetabolicPathway.BETA_OXIDATION else "walker")
                full = f"{cls}:{why}"
                desc = f"{full}: {expr!r} (pathway={used.name if used else None}): engine={r.atp.value!r} python={'raises ' + type(py_val).__name__ if not py_ok else repr(py_val)}"
                if full in known or os.environ.get("C02_COLLECT_ALL"):
                    seen.setdefault(full, desc)
                    continue
                return n, desc, seen
    return n, None, seen


if __name__ == "__main__":
    which = sys.argv[1] if len(sys.argv) > 1 else "C01"
    if which == "C01":
        n, bad, seen = c01_search("--no-bombs" not in sys.argv)
        bound = f"{len(FORBIDDEN)} forbidden constructs + {len(HOSTILE)} hostile strings x 5 pathways x silent/non-silent; 4 cost bombs in a supervised child (4 s)"
    else:
        depth = int(sys.argv[2]) if len(sys.argv) > 2 else 2
        n_random = int(sys.argv[3]) if len(sys.argv) > 3 else 300
        n, bad, seen = c02_search(depth, n_random, int(os.environ.get("VERIF_SEED", "0") or 0))
        bound = (f"grammar-directed expressions to depth {depth} + corner-case corpus + {n_random} random expressions of the allowed subset (nesting <= {depth + 1}), "
                 f"on the math/logic/auto pathways, vs restricted CPython eval")
    out = {"status": "ok" if bad is None else "violation", "bound": bound, "cases": n, "known_findings": list(seen.values())}
    if bad:
        out["detail"] = bad
        os.makedirs(os.path.join(ROOT, "replays"), exist_ok=True)
        json.dump({"property": which, "witness": bad, "how_to_replay": f"/venv/bin/python native/c01_bounded.py {which}"}, open(os.path.join(ROOT, f"replays/{which}-bounded.json"), "w"), indent=1)
        out["replay"] = f"replays/{which}-bounded.json"
    print(json.dumps(out))
